//! Size-boundary stream: sentences longer than 65536 characters (runs, repeated sentences, giant
//! space runs) and a long history on one worker. The list-based Coq model is quadratic in the
//! sentence length and is NOT evaluated here; the observations are judged by consistency checks
//! whose soundness follows from the theorems (c01_partition: tokens tile the input; c02_reported_path:
//! each token's total cost is its predecessor's plus connection and word cost; c03_groupable_is_run;
//! c12_invariance / c12_spaces_only; c04_state_independent). Flags: 1 = holds.
use crate::dictgen::*;
use crate::util::*;
use std::collections::BTreeMap;
use std::io::Write;

type Tok = (usize, usize, usize, usize, String, u16, u16, i32, i32, String); // cs ce bs be surface lid rid wcost total feature

fn toks(w: &vibrato::tokenizer::worker::Worker) -> Vec<Tok> {
    (0..w.num_tokens())
        .map(|i| {
            let t = w.token(i);
            (t.range_char().start, t.range_char().end, t.range_byte().start, t.range_byte().end, t.surface().to_string(), t.left_id(), t.right_id(), t.word_cost() as i32, t.total_cost(), t.feature().to_string())
        })
        .collect()
}

fn strip(v: &[Tok]) -> Vec<(String, u16, u16, i32, i32, String)> {
    v.iter().map(|t| (t.4.clone(), t.5, t.6, t.7, t.8, t.9.clone())).collect()
}

pub fn run(prop: &str, seed: u64, n: usize, outdir: &str) -> std::io::Result<()> {
    let report = format!("big_{}_report", prop.trim_start_matches("BIG_").to_lowercase());
    let mut sh = Shards::new(prop, "From Vib Require Import Model.Base Check.BigCheck.", "bigcase", &report);
    let mut dist: BTreeMap<String, usize> = BTreeMap::new();
    let mut master = Rng::new(seed ^ 0xB16);
    for _ in 0..n {
        let sub = master.next();
        let mut rng = Rng(sub);
        let go = GenOpts { force_space: true, allow_uncovered: false, with_user: 30, tie_heavy: false, malformed: false, many_ids: prop == "BIG_C13" };
        let mut gd = gen_dict(&mut rng, &go);
        // costs small enough that 70000 tokens stay far inside i32 (the 32-bit restriction is c01_total's hypothesis)
        for r in gd.sys.iter_mut().chain(gd.unk.iter_mut()) { r.cost = r.cost.clamp(-100, 100); }
        if let Some(u) = gd.user.as_mut() { for r in u.iter_mut() { r.cost = r.cost.clamp(-100, 100); } }
        for row in gd.matrix.iter_mut() { for c in row.iter_mut() { *c = (*c).clamp(-100, 100); } }
        let gd = gd;
        let dict = match gd.build() { Outcome::Ok(d) => d, _ => { *dist.entry("not_built".into()).or_default() += 1; continue; } };
        let mut flags: Vec<(String, u8)> = vec![];
        let mgl = *rng.pick(&[0usize, 0, 3, 65540]);
        let len_target = 65536 + rng.below(5000) as usize + if rng.chance(1, 3) { 0 } else { 64 };
        // sentence shapes
        let shape = rng.below(3);
        let base_short = { let mut s = gen_sentence(&mut rng, &gd); if s.is_empty() { s.push('a'); } s };
        let sentence: String = match shape {
            0 => { let c = *rng.pick(&ALPHABET[..5]); std::iter::repeat(c).take(len_target).collect() }      // one long run
            1 => { let mut s = String::new(); while s.chars().count() < len_target { s.push_str(&base_short); } s } // repeated sentence
            _ => { let mut s = String::new(); while s.chars().count() < len_target { s.push_str(&gen_sentence(&mut rng, &gd)); s.push('b'); } s }
        };
        let chars: Vec<char> = sentence.chars().collect();
        let conn = |r: u16, l: u16| dict.verif_conn_cost(r, l);
        let infos: Vec<(u32, u32, bool, bool, u16)> = chars.iter().map(|c| dict.verif_char_info(*c)).collect();
        let space_cate: Option<u32> = dict.verif_cate_id("SPACE");
        for ignore_space in [false, true] {
            let tag = if ignore_space { "sp" } else { "nosp" };
            let t = vibrato::Tokenizer::new(match gd.build() { Outcome::Ok(d) => d, _ => continue }).max_grouping_len(mgl);
            let t = match t.ignore_space(ignore_space) { Ok(t) => t, Err(_) => continue };
            let res = std::panic::catch_unwind(std::panic::AssertUnwindSafe(|| {
                let mut w = t.new_worker();
                w.reset_sentence(&sentence);
                w.tokenize();
                (toks(&w), w.verif_groupable())
            }));
            let (tk, grp) = match res {
                Ok(x) => x,
                Err(_) => { for f in ["c01_no_panic", "c02_no_panic", "c03_no_panic", "c12_no_panic"] { flags.push((format!("{}_{}", f, tag), 0)); } continue; }
            };
            // C01: tiling, surfaces, byte offsets
            let mut c2b = vec![0usize];
            for c in &chars { let l = *c2b.last().unwrap() + c.len_utf8(); c2b.push(l); }
            let is_space = |i: usize| space_cate.map_or(false, |sc| infos[i].0 & (1 << sc) != 0);
            let mut ok = true;
            let mut pos = 0usize;
            for x in &tk {
                if ignore_space { if x.0 > pos && !is_space(pos) { ok = false; } } else if x.0 != pos { ok = false; }
                if x.0 < pos || x.1 <= x.0 || x.1 > chars.len() { ok = false; break; }
                if x.2 != c2b[x.0] || x.3 != c2b[x.1] { ok = false; }
                if x.4 != chars[x.0..x.1].iter().collect::<String>() { ok = false; }
                pos = x.1;
            }
            if ignore_space { if pos < chars.len() && !is_space(pos) { ok = false; } } else if pos != chars.len() { ok = false; }
            flags.push((format!("c01_tokens_tile_the_input_{}", tag), ok as u8));
            // C02: the reported path's accumulated costs
            let (mut prev_total, mut prev_rid, mut okc) = (0i64, 0u16, true);
            for x in &tk {
                let exp = prev_total + conn(prev_rid, x.5) as i64 + x.7 as i64;
                if exp != x.8 as i64 { okc = false; }
                prev_total = x.8 as i64; prev_rid = x.6;
            }
            flags.push((format!("c02_path_costs_accumulate_{}", tag), okc as u8));
            // C03: groupable = length of the maximal run of characters sharing a category with their neighbour
            let mut exp = vec![1usize; chars.len()];
            for i in (0..chars.len().saturating_sub(1)).rev() { if infos[i].0 & infos[i + 1].0 != 0 { exp[i] = exp[i + 1] + 1; } }
            flags.push((format!("c03_groupable_is_the_maximal_run_{}", tag), (grp == exp) as u8));
            // C04: the same worker afterwards answers like a fresh one
            let after = std::panic::catch_unwind(std::panic::AssertUnwindSafe(|| {
                let mut w = t.new_worker();
                w.reset_sentence(&sentence);
                w.tokenize();
                w.reset_sentence(&base_short);
                w.tokenize();
                let a = toks(&w);
                let mut f = t.new_worker();
                f.reset_sentence(&base_short);
                f.tokenize();
                a == toks(&f)
            }));
            flags.push((format!("c04_short_sentence_after_a_giant_one_{}", tag), after.unwrap_or(false) as u8));
            // ... and the giant sentence on a worker that has already answered a short one (and an abandoned reset)
            let before = std::panic::catch_unwind(std::panic::AssertUnwindSafe(|| {
                let mut w = t.new_worker();
                w.reset_sentence(&base_short);
                w.tokenize();
                w.reset_sentence(&sentence);
                w.tokenize();
                let a = toks(&w) == tk;
                w.reset_sentence(&base_short);
                w.reset_sentence(&sentence);
                w.tokenize();
                a && toks(&w) == tk
            }));
            flags.push((format!("c04_giant_sentence_after_a_short_one_{}", tag), before.unwrap_or(false) as u8));
        }
        // C13: the statistics of one giant sentence = the evaluations recounted from the lattice the worker holds after
        // tokenize (one per node and node of the boundary it starts at, plus EOS), and every reported token is a node of
        // that lattice
        if prop == "BIG_C13" {
            let t = vibrato::Tokenizer::new(match gd.build() { Outcome::Ok(d) => d, _ => continue }).max_grouping_len(mgl);
            let r = std::panic::catch_unwind(std::panic::AssertUnwindSafe(|| {
                let mut w = t.new_worker();
                w.init_connid_counter();
                w.reset_sentence(&sentence);
                w.tokenize();
                w.update_connid_counts();
                let (ends, eos, _) = w.verif_lattice_dump();
                let (lc, rc) = w.verif_counts().unwrap_or_default();
                let tk = toks(&w);
                // (the order is judged after the sentence was counted three more times and two short ones once: more than
                // a million evaluations in total, ids with close counts)
                for _ in 0..3 { w.reset_sentence(&sentence); w.tokenize(); w.update_connid_counts(); }
                for s in [&base_short, &base_short] { w.reset_sentence(s); w.tokenize(); w.update_connid_counts(); }
                let (lc2, rc2) = w.verif_counts().unwrap_or_default();
                let mut el = vec![0usize; lc.len()];
                let mut er = vec![0usize; rc.len()];
                let preds = |sn: usize| -> Vec<usize> { if sn == 0 { vec![0] } else { ends.get(sn).map(|v| v.iter().map(|x| x[5] as usize).collect()).unwrap_or_default() } };
                for v in ends.iter().skip(1) { for nd in v { for pr in preds(nd[0] as usize) { if let Some(x) = el.get_mut(nd[4] as usize) { *x += 1; } if let Some(x) = er.get_mut(pr) { *x += 1; } } } }
                if let Some(e) = eos { for pr in preds(e[0] as usize) { el[0] += 1; if let Some(x) = er.get_mut(pr) { *x += 1; } } }
                // the statistics are ordered by count (descending), ties by id, and each value is count / total
                let (lp, rp) = w.compute_connid_probs();
                let order_ok = |probs: &Vec<(usize, f64)>, cnt: &Vec<usize>| -> bool {
                    let total: usize = cnt.iter().sum();
                    let mut exp: Vec<usize> = (1..cnt.len()).collect();
                    exp.sort_by(|a, b| cnt[*b].cmp(&cnt[*a]).then(a.cmp(b)));
                    probs.iter().map(|x| x.0).collect::<Vec<_>>() == exp
                        && probs.iter().all(|x| (x.1 - cnt[x.0] as f64 / total as f64).abs() == 0.0 || total == 0)
                };
                let ordered = order_ok(&lp, &lc2) && order_ok(&rp, &rc2);
                let tokens_are_nodes = tk.iter().all(|x| ends.get(x.1).map_or(false, |v| v.iter().any(|nd| nd[0] as usize <= x.0 && nd[1] as usize == x.0 && nd[4] as u16 == x.5 && nd[5] as u16 == x.6)));
                (el == lc && er == rc, tokens_are_nodes, !tk.is_empty(), ordered)
            }));
            match r {
                Ok((same, nodes, nonempty, ordered)) => { flags.push(("c13_statistics_ordered_by_count_then_id".into(), ordered as u8)); flags.push(("c13_counts_are_the_evaluations_of_the_lattice".into(), same as u8)); flags.push(("c13_tokens_are_nodes_of_the_counted_lattice".into(), (nodes && nonempty) as u8)); }
                Err(_) => flags.push(("c13_no_panic".into(), 0)),
            }
        }
        // C12: a run of more than 65535 spaces in leading / inner / trailing position, and spaces only
        if gd.space_clean {
            let t = vibrato::Tokenizer::new(match gd.build() { Outcome::Ok(d) => d, _ => continue }).max_grouping_len(mgl);
            if let Ok(t) = t.ignore_space(true) {
                let big: String = std::iter::repeat(' ').take(65536 + rng.below(300) as usize).collect();
                let core = { let s: String = base_short.chars().filter(|c| *c != ' ' && *c != '\u{3000}').collect(); if s.is_empty() { "ab".to_string() } else { s } };
                let variants = [format!("{} {}", core, core), format!("{}{}{}", core, big, core), format!("{}{} {}", big, core, core), format!("{} {}{}", core, core, big)];
                let res = std::panic::catch_unwind(std::panic::AssertUnwindSafe(|| {
                    let outs: Vec<_> = variants.iter().map(|s| { let mut w = t.new_worker(); w.reset_sentence(s); w.tokenize(); strip(&toks(&w)) }).collect();
                    let mut w = t.new_worker();
                    w.reset_sentence(&big);
                    w.tokenize();
                    (outs.iter().all(|o| *o == outs[0]), w.num_tokens() == 0)
                }));
                match res {
                    Ok((same, none)) => { flags.push(("c12_giant_space_runs_change_nothing".into(), same as u8)); flags.push(("c12_giant_spaces_only_no_tokens".into(), none as u8)); }
                    Err(_) => flags.push(("c12_no_panic_giant_spaces".into(), 0)),
                }
            }
        }
        *dist.entry(format!("shape_{}", shape)).or_default() += 1;
        let term = format!("(Build_bigcase {} {})", sub, clist(&flags, |(k, v)| format!("({}, {})", cstr(k), v)));
        let human = format!("dictionary: char.def={} unk.def={} lex.csv={} user={:?} matrix.def={}; max_grouping_len={}; sentence shape {} (0: one character x {len}, 1: {:?} repeated to {len} characters, 2: generated sentences joined by 'b'), first 60 characters {:?}",
            json_str(&gd.char_def()), json_str(&GenDict::rows_csv(&gd.unk)), json_str(&GenDict::rows_csv(&gd.sys)), gd.user.as_ref().map(|u| GenDict::rows_csv(u)), json_str(&gd.matrix_def()), mgl, shape, base_short, chars.iter().take(60).collect::<String>(), len = chars.len());
        sh.push_h(format!("seed:{}", sub), term, human);
    }
    // C04: a history whose number of lattice boundaries passes 2^16 (and 2^8) between two uses of the same words
    if prop == "BIG_C04" {
        let mut rng = Rng(seed ^ 0xB1604);
        let go = GenOpts { force_space: false, allow_uncovered: false, with_user: 0, tie_heavy: false, malformed: false, many_ids: false };
        let mut gd = gen_dict(&mut rng, &go);
        for r in gd.sys.iter_mut().chain(gd.unk.iter_mut()) { r.cost = r.cost.clamp(-100, 100); }
        for row in gd.matrix.iter_mut() { for c in row.iter_mut() { *c = (*c).clamp(-100, 100); } }
        if let Outcome::Ok(d) = gd.build() {
            let t = vibrato::Tokenizer::new(d);
            let mut flags: Vec<(String, u8)> = vec![];
            let first = gen_sentence(&mut rng, &gd);
            let last = gen_sentence(&mut rng, &gd);
            let mut ok = true;
            for target in [256usize, 65536] {
                for delta in 0..12usize {
                    for filler in ["z", "zz", "0"] {
                        let r = std::panic::catch_unwind(std::panic::AssertUnwindSafe(|| {
                            let mut w = t.new_worker();
                            w.reset_sentence(&first);
                            w.tokenize();
                            let per = filler.chars().count() + 1;
                            let reps = (target + delta).saturating_sub(first.chars().count() + 8) / per;
                            for _ in 0..reps { w.reset_sentence(filler); w.tokenize(); }
                            for k in 0..10 { if k > 0 { w.reset_sentence("z"); w.tokenize(); } w.reset_sentence(&last); w.tokenize(); 
                                let a = toks(&w); let mut f = t.new_worker(); f.reset_sentence(&last); f.tokenize(); if a != toks(&f) { return false; } }
                            true
                        }));
                        if !r.unwrap_or(false) { ok = false; }
                    }
                }
            }
            flags.push(("c04_long_histories_around_power_of_two_step_counts".into(), ok as u8));
            let term = format!("(Build_bigcase {} {})", 0xB1604u64, clist(&flags, |(k, v)| format!("({}, {})", cstr(k), v)));
            sh.push_h("pinned:long-history".to_string(), term, format!("first={:?} last={:?} fillers z/zz/0 repeated so that the number of processed boundaries passes 256 and 65536 (+0..11); dictionary lex.csv={}", first, last, json_str(&GenDict::rows_csv(&gd.sys))));
        }
    }
    let shards = sh.write(outdir, 50)?;
    let mut meta = std::fs::File::create(format!("{}/meta.json", outdir))?;
    let d: Vec<String> = dist.iter().map(|(k, v)| format!("{}:{}", json_str(k), v)).collect();
    writeln!(meta, "{{\"cases\":{},\"duplicates\":{},\"shards\":{},\"distribution\":{{{}}},\"samples\":[]}}", sh.cases.len(), sh.duplicates, shards, d.join(","))?;
    Ok(())
}
