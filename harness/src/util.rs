//! Shared helpers: PRNG, Coq term printers, shard writer.
use std::fmt::Write as _;
use std::io::Write as _;

#[derive(Clone)]
pub struct Rng(pub u64);
impl Rng {
    pub fn new(seed: u64) -> Self {
        Rng(seed ^ 0x9E37_79B9_7F4A_7C15)
    }
    pub fn next(&mut self) -> u64 {
        self.0 = self.0.wrapping_add(0x9E37_79B9_7F4A_7C15);
        let mut z = self.0;
        z = (z ^ (z >> 30)).wrapping_mul(0xBF58_476D_1CE4_E5B9);
        z = (z ^ (z >> 27)).wrapping_mul(0x94D0_49BB_1331_11EB);
        z ^ (z >> 31)
    }
    /// uniform in 0..n (n > 0)
    pub fn below(&mut self, n: u64) -> u64 {
        self.next() % n
    }
    pub fn range(&mut self, lo: i64, hi: i64) -> i64 {
        lo + (self.below((hi - lo + 1) as u64) as i64)
    }
    pub fn chance(&mut self, num: u64, den: u64) -> bool {
        self.below(den) < num
    }
    pub fn pick<'a, T>(&mut self, xs: &'a [T]) -> &'a T {
        &xs[self.below(xs.len() as u64) as usize]
    }
    pub fn fork(&mut self) -> Rng {
        Rng(self.next())
    }
    pub fn shuffle<T>(&mut self, xs: &mut [T]) {
        for i in (1..xs.len()).rev() {
            let j = self.below((i + 1) as u64) as usize;
            xs.swap(i, j);
        }
    }
}

/// Coq term for a string as a list of code points.
pub fn cstr(s: &str) -> String {
    let mut o = String::from("[");
    for (i, c) in s.chars().enumerate() {
        if i > 0 {
            o.push(';');
        }
        write!(o, "{}", c as u32).unwrap();
    }
    o.push(']');
    o
}
/// Coq term for a byte string as a list of bytes.
pub fn cbytes(b: &[u8]) -> String {
    let mut o = String::from("[");
    for (i, c) in b.iter().enumerate() {
        if i > 0 {
            o.push(';');
        }
        write!(o, "{}", c).unwrap();
    }
    o.push(']');
    o
}
pub fn clist<T, F: Fn(&T) -> String>(xs: &[T], f: F) -> String {
    let mut o = String::from("[");
    for (i, x) in xs.iter().enumerate() {
        if i > 0 {
            o.push(';');
        }
        o.push_str(&f(x));
    }
    o.push(']');
    o
}
pub fn copt<T, F: Fn(&T) -> String>(x: &Option<T>, f: F) -> String {
    match x {
        None => "None".to_string(),
        Some(v) => format!("(Some {})", f(v)),
    }
}
pub fn cz(v: i64) -> String {
    if v < 0 {
        format!("({})%Z", v)
    } else {
        format!("{}%Z", v)
    }
}
pub fn cn<T: std::fmt::Display>(v: T) -> String {
    format!("{}", v)
}
pub fn cbool(b: bool) -> &'static str {
    if b {
        "true"
    } else {
        "false"
    }
}
/// outcome of a call that may return Err or panic
pub enum Outcome<T> {
    Ok(T),
    Err,
    Panic,
}
pub fn cres<T, F: Fn(&T) -> String>(x: &Outcome<T>, f: F) -> String {
    match x {
        Outcome::Ok(v) => format!("(Ok {})", f(v)),
        Outcome::Err => "Err".to_string(),
        Outcome::Panic => "Panic".to_string(),
    }
}
impl<T> Outcome<T> {
    pub fn kind(&self) -> &'static str {
        match self {
            Outcome::Ok(_) => "ok",
            Outcome::Err => "err",
            Outcome::Panic => "panic",
        }
    }
}

/// Runs `f`, mapping a panic to `Outcome::Panic`.
pub fn guarded<T, E, F: FnOnce() -> Result<T, E> + std::panic::UnwindSafe>(f: F) -> Outcome<T> {
    match std::panic::catch_unwind(f) {
        Ok(Ok(v)) => Outcome::Ok(v),
        Ok(Err(_)) => Outcome::Err,
        Err(_) => Outcome::Panic,
    }
}
pub fn guarded_plain<T, F: FnOnce() -> T + std::panic::UnwindSafe>(f: F) -> Outcome<T> {
    match std::panic::catch_unwind(f) {
        Ok(v) => Outcome::Ok(v),
        Err(_) => Outcome::Panic,
    }
}

pub fn json_str(s: &str) -> String {
    let mut o = String::from("\"");
    for c in s.chars() {
        match c {
            '"' => o.push_str("\\\""),
            '\\' => o.push_str("\\\\"),
            '\n' => o.push_str("\\n"),
            '\r' => o.push_str("\\r"),
            '\t' => o.push_str("\\t"),
            c if (c as u32) < 0x20 => write!(o, "\\u{:04x}", c as u32).unwrap(),
            c => o.push(c),
        }
    }
    o.push('"');
    o
}

/// Collects cases (as Coq terms) and writes them into shard files.
pub struct Shards {
    pub prop: String,
    pub header: String,
    pub case_type: String,
    pub report_fn: String,
    pub cases: Vec<String>,
    pub case_ids: Vec<String>,
    pub humans: Vec<String>,
    seen: std::collections::HashSet<u64>,
    pub duplicates: usize,
}
impl Shards {
    pub fn new(prop: &str, header: &str, case_type: &str, report_fn: &str) -> Self {
        Shards {
            prop: prop.to_string(),
            header: header.to_string(),
            case_type: case_type.to_string(),
            report_fn: report_fn.to_string(),
            cases: vec![],
            case_ids: vec![],
            humans: vec![],
            seen: Default::default(),
            duplicates: 0,
        }
    }
    /// Adds a case unless an identical term was already added. Returns whether it was added.
    pub fn push(&mut self, id: String, term: String) -> bool {
        self.push_h(id, term, String::new())
    }
    /// Like `push`, with a human-readable description (one line) kept for replay files.
    pub fn push_h(&mut self, id: String, term: String, human: String) -> bool {
        use std::hash::{Hash, Hasher};
        let mut h = std::collections::hash_map::DefaultHasher::new();
        term.hash(&mut h);
        if !self.seen.insert(h.finish()) {
            self.duplicates += 1;
            return false;
        }
        self.cases.push(term);
        self.case_ids.push(id);
        self.humans.push(human.replace('\n', " "));
        true
    }
    /// Like `write`, but a case whose term is larger than 100 kB gets a shard of its own.
    pub fn write_split(&self, outdir: &str, per_shard: usize) -> std::io::Result<usize> {
        std::fs::create_dir_all(outdir)?;
        let mut index = std::fs::File::create(format!("{}/index.txt", outdir))?;
        let mut groups: Vec<Vec<usize>> = vec![];
        let mut cur: Vec<usize> = vec![];
        for i in 0..self.cases.len() {
            if self.cases[i].len() > 100_000 {
                groups.push(vec![i]);
            } else {
                cur.push(i);
                if cur.len() == per_shard {
                    groups.push(std::mem::take(&mut cur));
                }
            }
        }
        if !cur.is_empty() {
            groups.push(cur);
        }
        for (k, g) in groups.iter().enumerate() {
            let mut f = std::io::BufWriter::new(std::fs::File::create(format!("{}/shard_{}.v", outdir, k))?);
            writeln!(f, "{}", self.header)?;
            writeln!(f, "Open Scope N_scope.")?;
            writeln!(f, "Definition cases : list {} := [", self.case_type)?;
            for (j, &i) in g.iter().enumerate() {
                writeln!(f, "(* {} *) {}{}", self.case_ids[i], self.cases[i], if j + 1 < g.len() { ";" } else { "" })?;
                writeln!(index, "{} {} {}\t{}", k, j, self.case_ids[i], self.humans[i])?;
            }
            writeln!(f, "].")?;
            writeln!(f, "Eval vm_compute in ({} cases).", self.report_fn)?;
        }
        Ok(groups.len())
    }

    pub fn write(&self, outdir: &str, per_shard: usize) -> std::io::Result<usize> {
        std::fs::create_dir_all(outdir)?;
        let mut k = 0;
        let mut idx = 0;
        let mut index = std::fs::File::create(format!("{}/index.txt", outdir))?;
        while idx < self.cases.len() {
            let end = (idx + per_shard).min(self.cases.len());
            let mut f = std::io::BufWriter::new(std::fs::File::create(format!(
                "{}/shard_{}.v",
                outdir, k
            ))?);
            writeln!(f, "{}", self.header)?;
            writeln!(f, "Open Scope N_scope.")?;
            writeln!(f, "Definition cases : list {} := [", self.case_type)?;
            for i in idx..end {
                writeln!(f, "(* {} *) {}{}", self.case_ids[i], self.cases[i], if i + 1 < end { ";" } else { "" })?;
                writeln!(index, "{} {} {}\t{}", k, i - idx, self.case_ids[i], self.humans[i])?;
            }
            writeln!(f, "].")?;
            writeln!(f, "Eval vm_compute in ({} cases).", self.report_fn)?;
            k += 1;
            idx = end;
        }
        Ok(k)
    }
}

/// A sink that accepts at most `cap` bytes per `write` call (legal for `std::io::Write`).
pub struct Chunked { pub data: Vec<u8>, pub cap: usize }
impl std::io::Write for Chunked {
    fn write(&mut self, buf: &[u8]) -> std::io::Result<usize> {
        let n = buf.len().min(self.cap);
        self.data.extend_from_slice(&buf[..n]);
        Ok(n)
    }
    fn flush(&mut self) -> std::io::Result<()> { Ok(()) }
}

