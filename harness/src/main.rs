//! Correspondence harness: generates cases from one PRNG, runs the implementation (built from
//! /repo's working tree with `--cfg vibrato_verif`), and writes Coq shard files in which the
//! model and the oracle are evaluated on the same cases.
mod util;
mod c17;
mod dictgen;
mod tok;
mod c06;
mod c07;
mod c19;
mod img;
mod c11;
mod c20;
mod trn;
mod big;

fn main() {
    // silence panic messages of caught panics
    // (VERIF_PANIC_VERBOSE=1 prints them: used to debug the harness itself)
    if std::env::var("VERIF_PANIC_VERBOSE").is_err() {
        std::panic::set_hook(Box::new(|_| {}));
    }
    let args: Vec<String> = std::env::args().collect();
    if args.len() < 5 {
        eprintln!("usage: vharness <prop> <seed> <ncases> <outdir> [corpus-file]");
        std::process::exit(2);
    }
    let prop = args[1].as_str();
    let seed: u64 = args[2].parse().expect("seed");
    let n: usize = args[3].parse().expect("ncases");
    let outdir = args[4].as_str();
    let corpus = args.get(5).map(|s| s.as_str());
    let r = match prop {
        "C17" => c17::run(seed, n, outdir, corpus),
        "C06" => c06::run(seed, n, outdir, corpus),
        "C07" => c07::run(seed, n, outdir, corpus),
        "C19" => c19::run(seed, n, outdir, corpus),
        "C11" => c11::run(seed, n, outdir, corpus),
        "C20" => c20::run(seed, n, outdir, corpus),
        "C14" | "C15" | "C16" | "C18" | "C17T" => trn::run(prop, seed, n, outdir, corpus),
        "C15M" => trn::run_model_images(seed, n, outdir),
        p if p.starts_with("BIG_") => big::run(prop, seed, n, outdir),
        "C05" | "C09" => img::run(prop, seed, n, outdir, corpus),
        "TOK" | "C01" | "C02" | "C03" | "C04" | "C08" | "C10" | "C12" | "C13" => tok::run(prop, seed, n, outdir, corpus),
        _ => {
            eprintln!("unknown property {}", prop);
            std::process::exit(2);
        }
    };
    if let Err(e) = r {
        eprintln!("harness error: {}", e);
        std::process::exit(3);
    }
}
