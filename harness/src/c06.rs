//! C06: operation histories {map, map again, load user lexicon, clear, write/read} on a
//! dictionary; the final dictionary is observed (tokens, lattice, every connection cost, stored
//! mapper) next to the base dictionary that never was mapped.
use crate::dictgen::*;
use crate::tok::*;
use crate::util::*;
use std::collections::BTreeMap;
use std::io::Write;

#[derive(Clone, Debug)]
pub enum Op {
    Map(Vec<u16>, Vec<u16>),
    User(Option<Vec<Row>>),
    WriteRead,
}

fn perm(rng: &mut Rng, n: usize) -> Vec<u16> {
    // permutation of 1..n-1 (ids except 0)
    let mut v: Vec<u16> = (1..n as u16).collect();
    rng.shuffle(&mut v);
    v
}

fn malformed(rng: &mut Rng, n: usize) -> Vec<u16> {
    let mut v = perm(rng, n);
    match rng.below(6) {
        0 => v.push(n as u16),                  // too long, out of range
        1 => { if v.pop().is_none() { v.push(0); } } // too short (or 0 when there is nothing to drop)
        2 if !v.is_empty() => { let k = rng.below(v.len() as u64) as usize; v[k] = 0; } // mentions 0
        3 if v.len() >= 2 => { v[0] = v[1]; }    // repeats one, omits another
        4 => v.push(1),                          // too long, duplicate
        _ => v.insert(0, (n + 3) as u16),        // out of range
    }
    v
}

pub fn apply_ops(gd: &GenDict, ops: &[Op]) -> (Outcome<vibrato::Dictionary>, Vec<u8>) {
    let mut outcomes = vec![];
    let mut base = gd.clone();
    base.user = None;
    let mut cur = base.build();
    for op in ops {
        let d = match cur {
            Outcome::Ok(d) => d,
            other => return (other, outcomes),
        };
        let op = op.clone();
        cur = match op {
            Op::Map(l, r) => {
                // the ids are handed over as a Vec, or as lazy iterators whose length is not known in advance
                // (as when they are streamed from the lines of a mapping file)
                if (l.len() + r.len()) % 2 == 0 { guarded(move || d.map_connection_ids_from_iter(l, r)) }
                else { guarded(move || d.map_connection_ids_from_iter(l.into_iter().filter(|_| true), r.into_iter().filter(|_| true))) }
            }
            Op::User(Some(rows)) => {
                let csv = GenDict::rows_csv(&rows);
                guarded(move || d.reset_user_lexicon_from_reader(Some(csv.as_bytes())))
            }
            Op::User(None) => guarded(move || d.reset_user_lexicon_from_reader(None::<&[u8]>)),
            Op::WriteRead => guarded(move || {
                let mut buf = vec![];
                d.write(&mut buf)?;
                vibrato::Dictionary::read(&buf[..])
            }),
        };
        outcomes.push(match &cur { Outcome::Ok(_) => 0u8, Outcome::Err => 1, Outcome::Panic => 2 });
    }
    (cur, outcomes)
}

fn coq_op(op: &Op) -> String {
    match op {
        Op::Map(l, r) => format!("(OpMap {} {})", clist(l, |x| cn(x)), clist(r, |x| cn(x))),
        Op::User(u) => format!("(OpUser {})", copt(u, |rows| GenDict::coq_rows(rows))),
        Op::WriteRead => "OpWriteRead".to_string(),
    }
}

pub fn run(seed: u64, n: usize, outdir: &str, _corpus: Option<&str>) -> std::io::Result<()> {
    let mut sh = Shards::new(
        "C06",
        "From Vib Require Import Model.Base Model.Lattice Model.Tokenizer Model.DictBuild Model.Mapper Check.TokCheck Check.C06Check.",
        "c06case",
        "c06_report",
    );
    let mut dist: BTreeMap<String, usize> = BTreeMap::new();
    let mut samples = vec![];
    let mut master = Rng::new(seed ^ 0xC06);
    for _ in 0..n {
        let sub = master.next();
        let mut rng = Rng(sub);
        let go = GenOpts { force_space: false, allow_uncovered: false, with_user: 0, tie_heavy: rng.chance(1, 3), malformed: false, many_ids: false };
        let mut gd = gen_dict(&mut rng, &go);
        // half of the dictionaries use a raw or dual bigram connector instead of matrix.def
        // (duplicate feature rows make several ids share one row of the dual connector's matrix)
        let kind = rng.below(4);
        if kind >= 2 && gd.nright >= 2 && gd.nleft >= 2 {
            let bg = crate::c07::gen_bigram_sized(&mut rng, false, false, gd.nright - 1, gd.nleft - 1);
            gd.bigram = Some((bg.right_file(), bg.left_file(), bg.cost_file(), kind == 3));
        }
        // user rows for the history (1 lexicon in 8 has a row whose left or right id lies outside the connector, possibly in
        // the gap between its two dimensions: it must be rejected -- before and after any mapping -- with an error)
        let mut mk_user = |rng: &mut Rng, gd: &GenDict| -> Vec<Row> {
            let k = 1 + rng.below(3) as usize;
            let bad = if rng.chance(1, 8) { Some(rng.below(k as u64) as usize) } else { None };
            let bad_left = rng.chance(1, 2);
            (0..k)
                .map(|i| Row {
                    surface: if !gd.sys.is_empty() && rng.chance(1, 2) { rng.pick(&gd.sys).surface.clone() } else { gen_surface(rng, &ALPHABET[..6], 3) },
                    lid: if bad == Some(i) && bad_left { (gd.nleft + rng.below(1 + gd.nright.saturating_sub(gd.nleft) as u64) as usize) as u16 } else { rng.below(gd.nleft as u64) as u16 },
                    rid: if bad == Some(i) && !bad_left { (gd.nright + rng.below(1 + gd.nleft.saturating_sub(gd.nright) as u64) as usize) as u16 } else { rng.below(gd.nright as u64) as u16 },
                    cost: rng.range(-50, 50) as i16,
                    feature: format!("W{},u", i),
                })
                .collect()
        };
        let nops = 1 + rng.below(5) as usize;
        let mut ops = vec![];
        for _ in 0..nops {
            ops.push(match rng.below(10) {
                0..=4 => Op::Map(perm(&mut rng, gd.nleft), perm(&mut rng, gd.nright)),
                5..=6 => Op::User(Some(mk_user(&mut rng, &gd))),
                7 => Op::User(None),
                _ => Op::WriteRead,
            });
        }
        // optionally one malformed mapping as the last step of a second run
        let bad = if rng.chance(1, 3) {
            Some(if rng.chance(1, 2) {
                Op::Map(malformed(&mut rng, gd.nleft), perm(&mut rng, gd.nright))
            } else {
                Op::Map(perm(&mut rng, gd.nleft), malformed(&mut rng, gd.nright))
            })
        } else {
            None
        };
        // the user lexicon in force at the end, in the original ids
        let final_user = ops.iter().rev().find_map(|o| if let Op::User(u) = o { Some(u.clone()) } else { None }).unwrap_or(None);
        gd.user = final_user;
        let ignore_space = rng.chance(1, 4);
        let mgl = *rng.pick(&[0usize, 0, 2, 24]);
        let ns = 1 + rng.below(3) as usize;
        let sentences: Vec<String> = (0..ns).map(|_| gen_sentence(&mut rng, &gd)).collect();
        let mut r1 = rng.fork();
        let mut r2 = r1.clone();
        let base = run_case(&gd, ignore_space, mgl, &sentences, &mut r1, false, 0, "C06");
        let (_, outcomes) = apply_ops(&gd, &ops);
        let ops2 = ops.clone();
        let gd2 = gd.clone();
        let fin = run_case_with(&gd, &move || apply_ops(&gd2, &ops2).0, ignore_space, mgl, &sentences, &mut r2, false, 0, "C06");
        // stored mapper of the final dictionary
        let mapper = match apply_ops(&gd, &ops).0 {
            Outcome::Ok(d) => d.verif_mapper(),
            _ => None,
        };
        let bad_t = match &bad {
            Some(b) => {
                let mut all = ops.clone();
                all.push(b.clone());
                let (_, oc) = apply_ops(&gd, &all);
                format!("(Some ({}, {}))", coq_op(b), oc.last().copied().unwrap_or(9))
            }
            None => "None".to_string(),
        };
        let term = format!(
            "(Build_c06case {} {} {} {} {} {})",
            base.term,
            clist(&ops, coq_op),
            clist(&outcomes, |o| cn(o)),
            fin.term,
            copt(&mapper, |(l, r)| format!("({}, {})", clist(l, |x| cn(x)), clist(r, |x| cn(x)))),
            bad_t
        );
        let human = format!("{} connector={:?} ops={:?} malformed_last={:?}", base.human, gd.bigram, ops, bad);
        *dist.entry(format!("connector_{}", match &gd.bigram { None => "matrix", Some((_, _, _, false)) => "raw", Some(_) => "dual" })).or_default() += 1;
        *dist.entry(format!("ops_{}", ops.len())).or_default() += 1;
        *dist.entry(format!("maps_{}", ops.iter().filter(|o| matches!(o, Op::Map(..))).count())).or_default() += 1;
        *dist.entry(format!("malformed_{}", bad.is_some())).or_default() += 1;
        *dist.entry(format!("final_built_{}", fin.built)).or_default() += 1;
        if sh.push_h(format!("seed:{}", sub), term, human.clone()) && samples.len() < 2 {
            samples.push(format!("{{\"case\":{}}}", json_str(&human)));
        }
    }
    let shards = sh.write(outdir, 40)?;
    let mut meta = std::fs::File::create(format!("{}/meta.json", outdir))?;
    let d: Vec<String> = dist.iter().map(|(k, v)| format!("{}:{}", json_str(k), v)).collect();
    writeln!(
        meta,
        "{{\"cases\":{},\"duplicates\":{},\"shards\":{},\"distribution\":{{{}}},\"samples\":[{}]}}",
        sh.cases.len(), sh.duplicates, shards, d.join(","), samples.join(",")
    )?;
    Ok(())
}
